#!/usr/bin/env python3
"""Regenerates coq/theories/GenWiring.v from /repo's current source (C14).

Read from the source text (regex + a brace-depth scope tracker, comments and string
literals stripped first):
  * src/bin/naija/main.rs   — scratch capacity, the outermost `scratch_arena(None)` borrow
                               that is handed to `cli.run(&arena)`;
  * src/bin/naija/cmd.rs    — `run_source`: every `let x = scratch_arena(..)` in program
                               order with its conflict argument and lexical scope, which borrow is
                               passed to Lexer/Parser, Resolver (tables, facts) and Runtime
                               (persistent, frame), and which condition returns which ExitCode;
  * wasm/src/lib.rs         — the same for the playground entry point, plus its init capacity;
  * src/arena/scratch.rs    — which index `scratch_arena` picks for a conflict, what `init` and
                               `ScratchArena::drop` do (shape-checked; encoded as booleans);
  * src/syntax/{parser,scanner}.rs — that every diagnostic they emit has Severity::Error.
The result is a straight-line script of borrow / use / drop events per entry point.  The
theorems of Properties/C14.v are stated over these generated definitions.
The file is rewritten only when its content changes; a source whose shape is no longer
recognised makes the translator exit non-zero with a message.
"""
import os
import re
import sys

REPO = os.environ.get("VERIF_REPO", "/repo")
VERIF = os.path.dirname(os.path.dirname(os.path.abspath(__file__)))
OUT = os.path.join(VERIF, "coq", "theories", "GenWiring.v")

ENV = {"KIBI": 1024, "MEBI": 1024 * 1024, "GIBI": 1024 ** 3}


class TranslatorError(Exception):
    pass


def read(rel):
    p = os.path.join(REPO, rel)
    if not os.path.exists(p):
        raise TranslatorError("%s not found" % rel)
    with open(p, encoding="utf-8") as f:
        return f.read()


CHAR_LIT = re.compile(r"'(?:\\(?:u\{[0-9a-fA-F]+\}|x[0-9a-fA-F]{2}|.)|[^\\'])'")


def strip(src):
    """Removes comments; blanks the contents of string literals (keeps the quotes)."""
    out = []
    i, n = 0, len(src)
    while i < n:
        if src.startswith("//", i):
            j = src.find("\n", i)
            i = n if j < 0 else j
        elif src.startswith("/*", i):
            j = src.find("*/", i + 2)
            i = n if j < 0 else j + 2
        elif src[i] == "'" and CHAR_LIT.match(src, i):
            out.append("' '")
            i = CHAR_LIT.match(src, i).end()
        elif src[i] == '"':
            j = i + 1
            while j < n and src[j] != '"':
                j += 2 if src[j] == "\\" else 1
            out.append('""')
            i = j + 1
        else:
            out.append(src[i])
            i += 1
    return "".join(out)


def const_expr(text):
    t = re.sub(r"(?<=\d)_(?=\d)", "", text.strip())
    if not re.fullmatch(r"[\w\s+\-*/()<>]+", t):
        raise TranslatorError("unsupported constant expression: %r" % text)
    try:
        return int(eval(t.replace("/", "//"), {"__builtins__": {}}, dict(ENV)))
    except Exception as e:  # noqa
        raise TranslatorError("cannot evaluate %r: %s" % (text, e))


def fn_body(src, name):
    """Text between the braces of `fn name(...) ... { ... }` and its parameter list."""
    m = re.search(r"\bfn\s+%s\s*\(([^)]*)\)[^{;]*\{" % re.escape(name), src)
    if not m:
        raise TranslatorError("fn %s not found" % name)
    depth = 1
    i = m.end()
    while i < len(src) and depth:
        if src[i] == "{":
            depth += 1
        elif src[i] == "}":
            depth -= 1
        i += 1
    if depth:
        raise TranslatorError("fn %s: unbalanced braces" % name)
    return m.group(1), src[m.end():i - 1]


def name_of(arg):
    return arg.strip().lstrip("&").strip()


EVENT_RE = re.compile(
    r"(?P<open>\{)|(?P<close>\})"
    r"|let\s+(?:mut\s+)?(?P<bname>\w+)\s*=\s*scratch_arena\(\s*(?P<barg>None|Some\(\s*&?\s*\w+\s*\))\s*\)\s*;"
    r"|Lexer::new\(\s*[^,()]+,\s*(?P<lex>&?\s*\w+)\s*\)"
    r"|Parser::new\(\s*[^,()]+,\s*(?P<par>&?\s*\w+)\s*\)"
    r"|Resolver::with_facts_arena\(\s*(?P<rt>&?\s*\w+)\s*,\s*(?P<rf>&?\s*\w+)\s*\)"
    r"|Resolver::new\(\s*(?P<rn>&?\s*\w+)\s*\)"
    r"|Runtime::new\(\s*(?P<rp>&?\s*\w+)\s*,\s*(?P<rfr>None|Some\(\s*&?\s*\w+\s*\))\s*\)")


def pipeline_script(body, env0, what):
    """Walks `body` in text order.  env0: name -> handle index of borrows made by the caller.
    Returns the list of events (as Coq terms) for the straight-line path, the number of
    borrows made here, and the scopes still open at the end (must be none)."""
    env = dict(env0)
    nxt = len(env0)
    scopes = [[]]          # borrows declared per open lexical scope
    ev = []
    lexer_h = None
    seen = {"parse": 0, "resolve": 0, "run": 0}

    def handle(arg):
        nm = name_of(arg)
        if nm not in env:
            raise TranslatorError("%s: `%s` is not a scratch borrow in scope (cannot follow the wiring)" % (what, nm))
        return env[nm]

    for m in EVENT_RE.finditer(body):
        if m.group("open"):
            scopes.append([])
        elif m.group("close"):
            if len(scopes) == 1:
                raise TranslatorError("%s: unbalanced scopes" % what)
            for nm in reversed(scopes.pop()):
                ev.append("WDrop")
                del env[nm]
        elif m.group("bname"):
            arg = m.group("barg")
            if arg == "None":
                c = "WNone"
            else:
                c = "WHandle %d" % handle(re.match(r"Some\((.*)\)", arg).group(1))
            ev.append("WBorrow (%s)" % c)
            env[m.group("bname")] = nxt
            scopes[-1].append(m.group("bname"))
            nxt += 1
        elif m.group("lex"):
            lexer_h = handle(m.group("lex"))
        elif m.group("par"):
            h = handle(m.group("par"))
            if lexer_h is None or lexer_h != h:
                raise TranslatorError("%s: Lexer and Parser do not share one arena" % what)
            ev.append("WParse %d" % h)
            seen["parse"] += 1
        elif m.group("rt"):
            ev.append("WResolve %d %d" % (handle(m.group("rt")), handle(m.group("rf"))))
            seen["resolve"] += 1
        elif m.group("rn"):
            h = handle(m.group("rn"))
            ev.append("WResolve %d %d" % (h, h))
            seen["resolve"] += 1
        elif m.group("rp"):
            fr = m.group("rfr")
            p = handle(m.group("rp"))
            f = p if fr == "None" else handle(re.match(r"Some\((.*)\)", fr).group(1))
            ev.append("WRun %d %d" % (p, f))
            seen["run"] += 1
    if len(scopes) != 1:
        raise TranslatorError("%s: unbalanced scopes at end" % what)
    for k, v in seen.items():
        if v != 1:
            raise TranslatorError("%s: expected exactly one %s phase, found %d" % (what, k, v))
    tail = ["WDrop" for _ in scopes[0]]
    return ev + tail, nxt


def exit_guards(body, what):
    """(guard, ExitCode) of the three early returns of run_source, and the final value."""
    gs = []
    for m in re.finditer(r"if\s+([^{}]+?)\s*\{[^{}]*?return\s+ExitCode::(\w+)\s*;", body):
        gs.append((re.sub(r"\s+", "", m.group(1)), m.group(2)))
    want = [("!err.diagnostics.is_empty()", "GNonEmpty"),
            ("resolver.errors.has_errors()", "GHasErrors"),
            ("err.has_errors()", "GHasErrors")]
    if len(gs) != 3:
        raise TranslatorError("%s: expected three guarded early returns, found %r" % (what, gs))
    out = []
    for (cond, code), (wcond, g) in zip(gs, want):
        if cond != wcond:
            raise TranslatorError("%s: unexpected guard %r (wanted %r)" % (what, cond, wcond))
        out.append((g, code))
    m = re.search(r"ExitCode::(\w+)\s*$", body.rstrip().rstrip("}").rstrip())
    if not m:
        raise TranslatorError("%s: final ExitCode expression not found" % what)
    return out, m.group(1)


EXIT_Z = {"SUCCESS": 0, "FAILURE": 1}   # std::process::ExitCode on unix


def only_error_severity(rel):
    src = strip(read(rel))
    uses = re.findall(r"Severity::(\w+)", src)
    if not uses:
        raise TranslatorError("%s: no Severity:: use found" % rel)
    return all(u == "Error" for u in uses)



def enclosing_fn(src, pos):
    """(name, params, body text, body start) of the innermost `fn` whose body contains pos."""
    best = None
    for m in re.finditer(r"\bfn\s+(\w+)\s*(?:<[^>]*>)?\s*\(", src):
        if m.start() > pos:
            break
        # parameter list up to the matching parenthesis
        i, depth = m.end(), 1
        while i < len(src) and depth:
            depth += {"(": 1, ")": -1}.get(src[i], 0)
            i += 1
        params = src[m.end():i - 1]
        j = src.find("{", i)
        k = src.find(";", i)
        if j < 0 or (0 <= k < j):
            continue
        b, depth = j + 1, 1
        while b < len(src) and depth:
            depth += {"{": 1, "}": -1}.get(src[b], 0)
            b += 1
        if j < pos < b:
            best = (m.group(1), params, src[j + 1:b - 1], j + 1)
    return best


def mark_is_own_offset(body_before, var, arena_field):
    """`var` was read from self.<arena_field>.offset() earlier in this function: directly, or
    through `let w = if self.has_frame_arena() { Some(self.frame.offset()) } else { None }` and
    `if let Some(var) = w`."""
    if re.search(r"let\s+%s\s*=\s*self\.%s\.offset\(\)\s*;" % (var, arena_field), body_before):
        return True
    m = None
    for m in re.finditer(r"if\s+let\s+Some\(\s*%s\s*\)\s*=\s*(\w+)" % var, body_before):
        pass
    if m:
        w = m.group(1)
        if re.search(r"let\s+%s\s*=\s*if\s+self\.has_frame_arena\(\)\s*\{\s*Some\(\s*self\.%s\.offset\(\)\s*\)\s*\}\s*else\s*\{\s*None\s*\}\s*;"
                     % (w, arena_field), body_before):
            return True
    return False


def reset_sites():
    """Every `.reset(x)` outside src/arena: which arena field, and whether x is an offset the
    same function (or its only callers) read from that same arena."""
    sites = []
    root = os.path.join(REPO, "src")
    for dp, _, fs in os.walk(root):
        if os.path.relpath(dp, root).split(os.sep)[0] in ("arena",):
            continue
        for fn in sorted(fs):
            if not fn.endswith(".rs"):
                continue
            rel = os.path.relpath(os.path.join(dp, fn), REPO)
            src = strip(read(rel))
            for m in re.finditer(r"(\w+(?:\.\w+)*)\.reset\(\s*([^)]*)\)", src):
                recv, arg = m.group(1), m.group(2).strip()
                mm = re.fullmatch(r"self\.(frame|arena)", recv)
                f = enclosing_fn(src, m.start())
                if not mm or not re.fullmatch(r"\w+", arg) or not f:
                    # not a shape this reader understands: recorded as "not known to target its own
                    # mark", which only the C14 proof obligation (Example in Properties/C14.v) rejects
                    sites.append(("frame", "%s:%s" % (rel, recv), False))
                    continue
                field = mm.group(1)
                name, params, body, bstart = f
                before = body[:m.start() - bstart]
                ok = mark_is_own_offset(before, arg, field)
                if not ok and re.search(r"\b%s\s*:\s*usize" % arg, params):
                    # a parameter: every caller must pass an offset it read from the same arena
                    names = [p.split(":")[0].strip() for p in params.split(",")]
                    pidx = names.index(arg) - (1 if "self" in names[0] else 0)
                    calls = [c for c in re.finditer(r"self\.%s\(([^()]*)\)" % name, src)]
                    ok = bool(calls)
                    for c in calls:
                        a = [x.strip() for x in c.group(1).split(",")]
                        cf = enclosing_fn(src, c.start())
                        if not cf or pidx >= len(a) or not mark_is_own_offset(cf[2][:c.start() - cf[3]], a[pidx], field):
                            ok = False
                sites.append((field, name, ok))
    return sites


def scratch_facts():
    s = strip(read("src/arena/scratch.rs"))
    _, init = fn_body(s, "init")
    if not re.search(r"if\s+s\.is_empty\(\)\s*\{\s*\*s\s*=\s*bump::Arena::new\(capacity\)\?;\s*\}\s*else\s*\{\s*s\.reset\(0\);\s*\}", init):
        raise TranslatorError("scratch::init no longer has the shape `if empty { new(capacity) } else { reset(0) }`")
    init_decommits = "decommit" in init
    _, sa = fn_body(s, "scratch_arena")
    if not re.search(r"let\s+index\s*=\s*usize::from\(\s*opt_ptr_eq\(\s*conflict\s*,\s*Some\(&S_SCRATCH\[0\]\)\s*\)\s*\)\s*;", sa):
        raise TranslatorError("scratch_arena no longer picks index = (conflict == &S_SCRATCH[0])")
    if not re.search(r"static\s+mut\s+S_SCRATCH\s*:\s*\[bump::Arena;\s*2\]", s):
        raise TranslatorError("S_SCRATCH is no longer two arenas")
    m = re.search(r"impl\s+Drop\s+for\s+ScratchArena<'_>\s*\{\s*fn\s+drop\(&mut\s+self\)\s*\{(.*?)\}\s*\}", s, re.S)
    if not m:
        raise TranslatorError("ScratchArena::drop not found")
    d = re.sub(r"\s+", "", m.group(1))
    if not d.startswith("unsafe{self.arena.reset(self.offset)};"):
        raise TranslatorError("ScratchArena::drop no longer resets to the saved offset first")
    drop_decommits = d == "unsafe{self.arena.reset(self.offset)};self.arena.decommit();"
    if not drop_decommits and d != "unsafe{self.arena.reset(self.offset)};":
        raise TranslatorError("ScratchArena::drop has an unknown shape: %s" % d)
    if len(re.findall(r"let\s+offset\s*=\s*arena\.offset\(\);", s)) < 1:
        raise TranslatorError("ScratchArena::new no longer records arena.offset()")
    return init_decommits, drop_decommits



def stdin_reader():
    """cmd.rs run_stdin: (size of the read block, whether UTF-8 is validated once on the whole
    accumulated buffer after the read loop and nowhere inside it).  Never raises: an unknown shape
    gives (0, False), which only the C14 proof obligations reject."""
    try:
        cmd = strip(read("src/bin/naija/cmd.rs"))
        _, body = fn_body(cmd, "run_stdin")
        m = re.search(r"let\s+mut\s+(\w+)\s*=\s*\[\s*0u8\s*;\s*([^\]]+)\]\s*;", body)
        if not m or not re.search(r"\.read\(\s*&mut\s+%s\s*\)" % m.group(1), body):
            return 0, False
        block = const_expr(m.group(2))
        lp = re.search(r"\bloop\s*\{", body)
        if not lp:
            return block, False
        i, depth = lp.end(), 1
        while i < len(body) and depth:
            depth += {"{": 1, "}": -1}.get(body[i], 0)
            i += 1
        inside, after = body[lp.end():i - 1], body[i:]
        ext = re.search(r"(\w+)\.extend_from_slice\(\s*&%s\[\s*\.\.\s*\w+\s*\]\s*\)" % m.group(1), inside)
        if not ext or "from_utf8" in inside or "utf8" in inside.lower():
            return block, False
        buf = ext.group(1)
        whole = re.search(r"match\s+std::str::from_utf8\(\s*&%s\s*\)\s*\{\s*Ok\(\s*_\s*\)\s*=>\s*unsafe\s*\{\s*"
                          r"ArenaString::from_utf8_unchecked\(\s*%s\s*\)\s*\}" % (buf, buf), after)
        unchecked = len(re.findall(r"from_utf8_unchecked", body))
        return block, bool(whole) and unchecked == 1
    except TranslatorError:
        return 0, False


GUARD_RE = re.compile(r"if\s+([^{}]+?)\s*\{[^{}]*?\breturn\b")


def plan_and_returns(body, allowed_guards):
    """(the Option plan from into_artifacts reaches run_with_analysis untouched with nothing that
    can leave the function in between, number of `return`s that are not directly inside one of the
    known guards).  Never raises."""
    m = re.search(r"let\s*\(\s*(\w+)\s*,\s*(\w+)\s*\)\s*=\s*resolver\.into_artifacts\(\)\s*;", body)
    passthrough = False
    if m:
        facts, plan = m.group(1), m.group(2)
        r = re.search(r"\.run_with_analysis\(\s*\w+\s*,\s*&%s\s*,\s*%s\.as_ref\(\)\s*\)" % (facts, plan), body[m.end():])
        if r:
            between = body[m.end():m.end() + r.start()]
            passthrough = not re.search(r"\breturn\b|\belse\b|\?|\bunwrap|\bexpect\b|\bpanic|\bexit\b|\bbreak\b|\b%s\b|\b%s\b" % (facts, plan), between)
    total = len(re.findall(r"\breturn\b", body))
    guarded = 0
    for g in GUARD_RE.finditer(body):
        if re.sub(r"\s+", "", g.group(1)) in allowed_guards:
            guarded += 1
    return passthrough, max(total - guarded, 0)


CLI_GUARDS = {"!err.diagnostics.is_empty()", "resolver.errors.has_errors()", "err.has_errors()"}
WASM_GUARDS = CLI_GUARDS | {"letErr(err)=arena::init(16*MEBI)", "!non_err.is_empty()"}


TRANSFORM_RE = re.compile(
    r"\.(strip_\w+|trim\w*|replace\w*|to_\w*case|to_owned|to_string|lines|split\w*|chars|char_indices|bytes|retain|truncate|pop|remove|"
    r"insert\w*|drain|skip\w*|take\w*|filter\w*|map|collect|repeat|concat|join|push\w*|get\w*|clear|normalize\w*|nfc|nfd)\s*\(|\[[^\]]*\.\.[^\]]*\]")


def text_passthrough():
    """For each input mode of cmd.rs, and for run_source of cmd.rs and of the playground: is the text
    handed on exactly as it was read — the variable bound by the read is the one passed (by
    reference) to run_source / Lexer::new, and nothing in the function slices it or calls a method
    that could produce a different text.  Purely syntactic, never raises; False = not recognised."""
    out = {"file": False, "eval": False, "stdin": False, "cli_run_source": False, "wasm_run_source": False}
    try:
        cmd = strip(read("src/bin/naija/cmd.rs"))
        _, fbody = fn_body(cmd, "run_file")
        m = re.search(r"match\s+fs::read_to_string\(\s*path\s*\)\s*\{\s*Ok\(\s*(\w+)\s*\)\s*=>\s*run_source\(\s*path\s*,\s*&\1\s*,\s*arena\s*\)\s*,", fbody)
        out["file"] = bool(m) and not TRANSFORM_RE.search(fbody) and len(re.findall(r"run_source\(", fbody)) == 1
        _, rbody = fn_body(cmd, "run")
        m = re.search(r"if\s+let\s+Some\(\s*(\w+)\s*\)\s*=\s*self\.eval\s*\{\s*run_source\(\s*\"\"\s*,\s*&\1\s*,\s*arena\s*\)\s*\}", rbody)
        out["eval"] = bool(m) and len(re.findall(r"self\.eval", rbody)) == 1
        _, sbody = fn_body(cmd, "run_stdin")
        m = re.search(r"run_source\(\s*\"\"\s*,\s*&(\w+)\s*,\s*arena\s*\)", sbody)
        if m:
            v = m.group(1)
            bound = re.findall(r"let\s+(?:mut\s+)?%s\b" % v, sbody)
            arm = re.search(r"Ok\(\s*(\w+)\s*\)\s*=>\s*(\w+)\.extend_from_slice\(\s*&\w+\[\s*\.\.\s*\1\s*\]\s*\)\s*,", sbody)
            rest = sbody.replace(arm.group(0), "") if arm else sbody
            out["stdin"] = bool(arm) and len(bound) == 1 and not TRANSFORM_RE.search(rest) and stdin_reader()[1]
        for key, rel, lex in (("cli_run_source", "src/bin/naija/cmd.rs", r"Lexer::new\(\s*src\s*,\s*arena\s*\)"),
                              ("wasm_run_source", "wasm/src/lib.rs", r"Lexer::new\(\s*src\s*,\s*&arena\s*\)")):
            params, body = fn_body(strip(read(rel)), "run_source")
            has_param = bool(re.search(r"\bsrc\s*:\s*&str", params))
            rebound = re.search(r"let\s+(?:mut\s+)?src\b|\bsrc\s*=[^=]", body)
            uses = re.findall(r"\bsrc\b(\s*\.\s*\w+)?", body)
            # src may only be passed on as it is (Lexer::new, report / render_ansi) or asked for its length
            odd = [u for u in uses if u and not re.fullmatch(r"\s*\.\s*len", u)]
            out[key] = has_param and not rebound and bool(re.search(lex, body)) and not odd
    except (TranslatorError, AttributeError):
        pass
    return out


GLOBAL_TYPES = r"Mutex|RwLock|Atomic\w*|Cell|RefCell|OnceLock|OnceCell|LazyLock|LazyCell|UnsafeCell"
KNOWN_GLOBALS = {("src/arena/scratch.rs", "S_SCRATCH"), ("src/sys/unix.rs", "PENDING")}


def process_globals():
    """Mutable process-global state of the crate (what one run could leave behind for the next):
    `static mut`, statics with interior mutability, thread_local!s — outside items guarded by
    cfg(naijascript_verif) / cfg(test) / cfg(windows) and outside src/sys/windows.rs and the
    self-update tool.  Never raises."""
    found = set()
    try:
        root = os.path.join(REPO, "src")
        for dp, _, fs in os.walk(root):
            for fn in sorted(fs):
                rel = os.path.relpath(os.path.join(dp, fn), REPO)
                if not fn.endswith(".rs") or rel in ("src/sys/windows.rs", "src/bin/naija/toolchain.rs"):
                    continue
                src = strip(read(rel))
                # blank out the item (or field, statement, expression) each guard applies to: it ends at
                # the first `;` or `,` outside brackets, at the end of its first `{...}` block, or where
                # the enclosing block / list closes — whichever comes first
                while True:
                    g = re.search(r"#\[cfg\((?:naijascript_verif|test|windows|target_os\s*=\s*\"\"[^\]]*)\)\]", src)
                    if not g:
                        break
                    k, depth = g.end(), 0
                    while k < len(src):
                        c = src[k]
                        if c in "([":
                            depth += 1
                        elif c in ")]":
                            if depth == 0:
                                break
                            depth -= 1
                        elif c == "{" and depth == 0:
                            d = 1
                            k += 1
                            while k < len(src) and d:
                                d += {"{": 1, "}": -1}.get(src[k], 0)
                                k += 1
                            break
                        elif c == "}" and depth == 0:
                            break
                        elif c in ";," and depth == 0:
                            k += 1
                            break
                        k += 1
                    src = src[:g.start()] + " " * (k - g.start()) + src[k:]
                for m in re.finditer(r"\bstatic\s+(mut\s+)?(\w+)\s*:\s*([^=]+?)=", src):
                    if m.group(1) or re.search(GLOBAL_TYPES, m.group(3)):
                        found.add((rel, m.group(2)))
                for m in re.finditer(r"\bthread_local!", src):     # at any nesting depth; its statics are listed above too
                    found.add((rel, "thread_local!"))
                for m in re.finditer(r"\b(lazy_static!|static_init|once_cell::sync::Lazy)", src):
                    found.add((rel, m.group(1)))
    except (TranslatorError, OSError):
        found.add(("?", "?"))
    return sorted(found)


def wasm_wiring():
    """(init capacity, events) of wasm/src/lib.rs run_source."""
    wasm = strip(read("wasm/src/lib.rs"))
    _, wbody = fn_body(wasm, "run_source")
    m = re.search(r"arena::init\(\s*([^)]+)\)", wbody)
    if not m:
        raise TranslatorError("wasm: arena::init(..) not found in run_source")
    wasm_cap = const_expr(m.group(1))
    if wbody.find("arena::init") > wbody.find("scratch_arena("):
        raise TranslatorError("wasm: scratch_arena is called before arena::init")
    wev, _ = pipeline_script(wbody, {}, "wasm run_source")
    return wasm_cap, wev


def generate():
    L = []
    A = L.append
    A("(* GENERATED by translator/gen_scratch.py from the repository under test — do not edit. *)")
    A("From Coq Require Import ZArith List Bool.")
    A("Import ListNotations.")
    A("Open Scope Z_scope.")
    A("")
    A("(* Conflict argument of a `scratch_arena` call: none, or the k-th scratch borrow made by")
    A("   this entry point (0 = first).  Events of one straight-line pipeline run. *)")
    A("Inductive wref := WNone | WHandle (k : nat).")
    A("Inductive wev :=")
    A("| WBorrow (c : wref)                 (* let x = scratch_arena(c) *)")
    A("| WDrop                              (* end of the scope of the newest live borrow *)")
    A("| WParse (h : nat)                   (* Lexer::new(src, h); Parser::new(lexer, h) *)")
    A("| WResolve (tables facts : nat)      (* Resolver::with_facts_arena(tables, facts) *)")
    A("| WRun (persist frame : nat).        (* Runtime::new(persist, Some(frame)) *)")
    A("Inductive guard := GNonEmpty | GHasErrors.")
    A("")

    init_decommits, drop_decommits = scratch_facts()
    A("(* src/arena/scratch.rs *)")
    A("Definition init_decommits : bool := %s.   (* init = reset(0) on a non-empty arena; decommit? *)" % str(init_decommits).lower())
    A("Definition drop_decommits : bool := %s.   (* ScratchArena::drop = reset(saved offset); decommit? *)" % str(drop_decommits).lower())
    A("")

    # ---- CLI
    main_rs = strip(read("src/bin/naija/main.rs"))
    _, mbody = fn_body(main_rs, "main")
    m = re.search(r"arena::init\(\s*(\w+)\s*\)", mbody)
    if not m:
        raise TranslatorError("main.rs: arena::init(CONST) not found")
    cname = m.group(1)
    # string contents are blanked by strip(); read the 64-bit one from the raw text instead
    raw = read("src/bin/naija/main.rs")
    m64 = re.search(r'#\[cfg\(target_pointer_width\s*=\s*"64"\)\]\s*const\s+%s\s*:\s*usize\s*=\s*([^;]+);' % cname, raw)
    if not m64:
        raise TranslatorError("main.rs: 64-bit %s not found" % cname)
    cli_cap = const_expr(m64.group(1))
    mb = re.search(r"let\s+(\w+)\s*=\s*scratch_arena\(\s*None\s*\)\s*;\s*cli\.run\(\s*&\s*(\w+)\s*\)", mbody)
    if not mb or mb.group(1) != mb.group(2):
        raise TranslatorError("main.rs: `let arena = scratch_arena(None); cli.run(&arena)` not found")
    if len(re.findall(r"scratch_arena\(", mbody)) != 1:
        raise TranslatorError("main.rs: more than one scratch_arena call in main")
    if mbody.find("arena::init") > mbody.find("scratch_arena("):
        raise TranslatorError("main.rs: scratch_arena is called before arena::init")
    cmd = strip(read("src/bin/naija/cmd.rs"))
    params, body = fn_body(cmd, "run_source")
    pn = [p.split(":")[0].strip() for p in params.split(",") if p.strip()]
    if len(pn) != 3:
        raise TranslatorError("cmd.rs: run_source no longer takes (filename, src, arena)")
    arena_param = pn[2]
    for caller in re.findall(r"run_source\(([^)]*)\)", cmd.replace("fn run_source(" + params + ")", "")):
        last = caller.split(",")[-1].strip()
        if last != "arena":
            raise TranslatorError("cmd.rs: run_source called with %r instead of the arena handed down by main" % last)
    ev, n = pipeline_script(body, {arena_param: 0}, "cmd.rs run_source")
    cli = ["WBorrow (WNone)"] + ev + ["WDrop"]
    guards, final = exit_guards(body, "cmd.rs run_source")
    A("(* src/bin/naija/main.rs + cmd.rs run_source *)")
    A("Definition cli_capacity : Z := %d." % cli_cap)
    A("Definition cli_script : list wev :=\n  [%s]." % ";\n   ".join(cli))
    A("Definition cli_parse_guard : guard := %s.    Definition cli_parse_exit : Z := %d." % (guards[0][0], EXIT_Z[guards[0][1]]))
    A("Definition cli_resolve_guard : guard := %s.  Definition cli_resolve_exit : Z := %d." % (guards[1][0], EXIT_Z[guards[1][1]]))
    A("Definition cli_run_guard : guard := %s.      Definition cli_run_exit : Z := %d." % (guards[2][0], EXIT_Z[guards[2][1]]))
    A("Definition cli_final_exit : Z := %d." % EXIT_Z[final])
    pt, ung = plan_and_returns(body, CLI_GUARDS)
    A("(* the Option<plan> of resolver.into_artifacts() is handed to run_with_analysis as it is, with")
    A("   nothing in between that can leave run_source; `return`s outside the three guards above *)")
    A("Definition cli_plan_passthrough : bool := %s." % str(pt).lower())
    A("Definition cli_unguarded_returns : nat := %d." % ung)
    block, whole = stdin_reader()
    A("(* cmd.rs run_stdin: size of the read block; UTF-8 is validated once, on the whole accumulated")
    A("   buffer after the read loop, and nowhere inside the loop *)")
    A("Definition cli_stdin_block : Z := %d." % block)
    A("Definition cli_stdin_validates_whole_buffer : bool := %s." % str(whole).lower())
    tp = text_passthrough()
    A("(* the text that was read is the text that is lexed: per input mode, the variable bound by the read")
    A("   is handed to run_source by reference and nothing in the function slices or transforms it; and")
    A("   run_source hands its `src` parameter to Lexer::new unchanged *)")
    A("Definition cli_file_text_passthrough : bool := %s." % str(tp["file"]).lower())
    A("Definition cli_eval_text_passthrough : bool := %s." % str(tp["eval"]).lower())
    A("Definition cli_stdin_text_passthrough : bool := %s." % str(tp["stdin"]).lower())
    A("Definition cli_run_source_text_passthrough : bool := %s." % str(tp["cli_run_source"]).lower())
    A("Definition wasm_run_source_text_passthrough : bool := %s." % str(tp["wasm_run_source"]).lower())
    pg = process_globals()
    A("(* mutable process-global state outside verification hooks: %s *)" % ", ".join("%s %s" % x for x in pg))
    A("Definition process_global_count : nat := %d." % len(pg))
    A("Definition process_globals_are_scratch_and_pending : bool := %s." % str(set(pg) == KNOWN_GLOBALS).lower())
    A("")

    # ---- wasm
    wasm_cap, wev = wasm_wiring()
    A("(* wasm/src/lib.rs run_source: init(capacity) at the start of every call, then *)")
    A("Definition wasm_capacity : Z := %d." % wasm_cap)
    A("Definition wasm_script : list wev :=\n  [%s]." % ";\n   ".join(wev))
    try:
        _, wb = fn_body(strip(read("wasm/src/lib.rs")), "run_source")
        wguards = {g for g in WASM_GUARDS if not g.startswith("letErr")} | {
            re.sub(r"\s+", "", g.group(1)) for g in GUARD_RE.finditer(wb) if re.sub(r"\s+", "", g.group(1)).startswith("letErr(err)=arena::init(")}
        wpt, wung = plan_and_returns(wb, wguards)
    except TranslatorError:
        wpt, wung = False, 99
    A("Definition wasm_plan_passthrough : bool := %s." % str(wpt).lower())
    A("Definition wasm_unguarded_returns : nat := %d." % wung)
    A("")

    sites = reset_sites()
    A("(* src/runtime.rs: the only arena resets outside src/arena.  true = frame arena, false = persistent")
    A("   arena; the flag says the target is an offset that the same function (or each of its callers)")
    A("   read from `.offset()` of that same arena — the shape the discipline `disc` relies on. *)")
    A("Definition runtime_reset_sites : list (bool * bool)%%type :=\n  [%s]." % "; ".join(
        "(%s, %s)" % (str(f == "frame").lower(), str(ok).lower()) for f, _, ok in sites))
    A("(* in: %s *)" % ", ".join("%s/%s" % (n, f) for f, n, _ in sites))
    A("")
    A("(* src/syntax/parser.rs, scanner.rs: every diagnostic they emit is Severity::Error *)")
    ok = only_error_severity("src/syntax/parser.rs") and only_error_severity("src/syntax/scanner.rs")
    A("Definition syntax_emits_only_errors : bool := %s." % str(ok).lower())
    A("")
    return "\n".join(L) + "\n"


def main():
    text = generate()
    old = None
    if os.path.exists(OUT):
        with open(OUT) as f:
            old = f.read()
    if old != text:
        with open(OUT, "w") as f:
            f.write(text)
        print("translator: GenWiring.v rewritten")
    else:
        print("translator: GenWiring.v unchanged")


if __name__ == "__main__":
    try:
        main()
    except TranslatorError as e:
        print("translator: ERROR (gen_scratch) %s" % e)
        sys.exit(2)
