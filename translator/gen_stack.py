#!/usr/bin/env python3
"""Regenerates coq/theories/GenStack.v from /repo's current source (property C08).

What is read (regex / brace matching over the Rust text, no rustc):
  * STACK_BUDGET (the non-wasm definition) in src/runtime.rs;
  * every `fn` of the files listed in FILES with its body, the `impl` type it belongs to and
    whether it takes a `self` receiver;
  * the call sites in each body: `self.f(`, `Self::f`, `Type::f`, `mod::f`, `.f(` on any
    receiver, bare `f(`, and formatting macros with a `{..}` placeholder (these reach
    `Display::fmt` implementations).  Resolution over-approximates: a method call on a receiver
    of unknown type is an edge to *every* listed function of that name that takes `self`;
    `X::f` with an unknown `X` is an edge to every listed `f`.
  * guard points: functions whose FIRST statement is `self.check_stack(..)?;`
  * for the evaluator (impl Runtime): the call sites that hand an AST node to
    exec_block_with_flow / exec_stmt / eval_expr, classified as
      - structural: the argument is a plain identifier bound by destructuring the caller's own
        AST argument (a strict sub-node), and the pair is on the whitelist STRUCTURAL below;
      - jump: the argument is a field path such as `func_def.body` (a node that is not below
        the caller's node: the only way native depth can grow without source nesting).
The file is rewritten only when its content changes.  Exit status 1 with a message when the
source no longer has the shape parsed here.
"""
import json
import os
import re
import sys

REPO = os.environ.get("VERIF_REPO", "/repo")
VERIF = os.path.dirname(os.path.dirname(os.path.abspath(__file__)))
OUT = os.environ.get("VERIF_GENSTACK_OUT", os.path.join(VERIF, "coq", "theories", "GenStack.v"))  # override: dry runs only

# group -> files.  A function's group is decided by (file, impl type), see group_of().
FILES = [
    "src/runtime.rs",
    "src/builtins/mod.rs", "src/builtins/array.rs", "src/builtins/string.rs",
    "src/builtins/number.rs", "src/builtins/process.rs",
    "src/syntax/parser.rs",
    "src/resolver.rs",
    "src/analysis/cfg.rs",
]

# Edges of the evaluator along which the callee receives a strict sub-node of the caller's AST
# node.  Each is verified at every call site (argument must be a bare identifier bound in a
# pattern of the caller, never a field path).  Only edges listed here are ever treated as
# structural, so a new recursion path is a dynamic one until someone justifies it here.
STRUCTURAL = [("Runtime::exec_stmt", "Runtime::exec_block_with_flow")]
# Self-recursions of the value operations over nested run-time data (depth = nesting depth of the
# data, not guarded): the known unguarded class of DESIGN section 7 row 14.  Anything else that
# recurses without a guard is NOT excused by this list.
DATA = ["Value::clone_into", "Value::promote", "Value::fmt", "ArrayBuiltin::join"]
AST_ENTRY = ("Runtime::exec_block_with_flow", "Runtime::exec_stmt", "Runtime::eval_expr")

KEYWORDS = set("""if while match for loop return let else fn impl where in as move ref mut unsafe
    Some None Ok Err Box Vec String matches assert assert_eq debug_assert unreachable unimplemented
    write writeln println print format vec panic""".split())


PROBE_INFO = {}


class TranslatorError(Exception):
    pass


def read(rel):
    p = os.path.join(REPO, rel)
    if not os.path.exists(p):
        raise TranslatorError("missing source file %s" % rel)
    with open(p, encoding="utf-8") as f:
        return f.read()


def strip_rust(src):
    """Blanks comments, string and char literals (keeps length and newlines).  A string literal
    that contains a `{` placeholder is replaced by the marker FMTPH (padded) so that formatting
    macros can be recognised afterwards."""
    out = []
    i, n = 0, len(src)

    def blank(s):
        return "".join(c if c == "\n" else " " for c in s)

    while i < n:
        c = src[i]
        if src.startswith("//", i):
            j = src.find("\n", i)
            j = n if j < 0 else j
            out.append(blank(src[i:j]))
            i = j
        elif src.startswith("/*", i):
            depth, j = 1, i + 2
            while j < n and depth:
                if src.startswith("/*", j):
                    depth += 1
                    j += 2
                elif src.startswith("*/", j):
                    depth -= 1
                    j += 2
                else:
                    j += 1
            out.append(blank(src[i:j]))
            i = j
        elif c == '"' or (c == "r" and re.match(r'r#*"', src[i:]) and (i == 0 or not (src[i - 1].isalnum() or src[i - 1] == "_"))) \
                or (c == "b" and src.startswith('b"', i) and (i == 0 or not (src[i - 1].isalnum() or src[i - 1] == "_"))):
            if c == "b":
                i += 1
                out.append(" ")
                c = '"'
            if c == "r":
                m = re.match(r'r(#*)"', src[i:])
                hashes = m.group(1)
                end = src.find('"' + hashes, i + len(m.group(0)))
                if end < 0:
                    raise TranslatorError("unterminated raw string")
                j = end + 1 + len(hashes)
            else:
                j = i + 1
                while j < n and src[j] != '"':
                    j += 2 if src[j] == "\\" else 1
                j += 1
            lit = src[i:j]
            body = lit.replace("{{", "")
            if "{" in body and len(lit) >= 7:
                out.append(" FMTPH " + blank(lit[7:]))
            elif "{" in body:
                out.append(" FMTPH ")  # changes length only inside a literal; offsets are not reused
            else:
                out.append(blank(lit))
            i = j
        elif c == "'":
            m = re.match(r"'(\\.[^']*|[^'\\])'", src[i:])
            if m:
                out.append(blank(m.group(0)))
                i += len(m.group(0))
            else:  # lifetime
                out.append(c)
                i += 1
        else:
            out.append(c)
            i += 1
    return "".join(out)


def match_brace(txt, i):
    """txt[i] == '{' -> index just after the matching '}'."""
    depth = 0
    for j in range(i, len(txt)):
        if txt[j] == "{":
            depth += 1
        elif txt[j] == "}":
            depth -= 1
            if depth == 0:
                return j + 1
    raise TranslatorError("unbalanced braces")


def drop_generics(s):
    prev = None
    while prev != s:
        prev = s
        s = re.sub(r"<[^<>]*>", "", s)
    return s


def remove_test_modules(txt):
    while True:
        m = re.search(r"#\[cfg\(test\)\]\s*(?:pub\s+)?mod\s+\w+\s*\{", txt)
        if not m:
            return txt
        end = match_brace(txt, m.end() - 1)
        txt = txt[:m.start()] + "".join(c if c == "\n" else " " for c in txt[m.start():end]) + txt[end:]


class Fn:
    def __init__(self, file, ty, name, has_self, params, body):
        self.file, self.ty, self.name, self.has_self, self.params, self.body = file, ty, name, has_self, params, body
        self.qual = "%s::%s" % (ty, name)


def parse_fns(rel, txt):
    """All fn items with bodies: inside impl blocks (ty = self type) and free (ty = file stem)."""
    stem = os.path.splitext(os.path.basename(rel))[0]
    if stem == "mod":
        stem = os.path.basename(os.path.dirname(rel))
    fns = []
    impl_spans = []
    for m in re.finditer(r"(?m)^[ \t]*(?:unsafe\s+)?impl\b([^{;]*)\{", txt):
        head = drop_generics(m.group(1))
        head = head.split(" where ")[0]
        if " for " in head:
            head = head.split(" for ", 1)[1]
        tym = re.findall(r"[A-Za-z_]\w*", head)
        if not tym:
            raise TranslatorError("cannot read impl header in %s: %r" % (rel, m.group(0)))
        ty = tym[-1] if tym[-1] not in ("mut", "dyn") else tym[0]
        # the self type is the first path's last segment
        first = re.match(r"\s*&?\s*(?:mut\s+)?([\w:]+)", head)
        ty = first.group(1).split("::")[-1] if first else ty
        end = match_brace(txt, m.end() - 1)
        impl_spans.append((m.end(), end - 1, ty))

    def ty_at(pos):
        for a, b, ty in impl_spans:
            if a <= pos < b:
                return ty
        return None

    for m in re.finditer(r"\bfn\s+([A-Za-z_]\w*)", txt):
        name = m.group(1)
        # signature: up to the first '{' or ';' at paren/bracket depth 0
        j = m.end()
        depth = 0
        angle = 0
        while j < len(txt):
            ch = txt[j]
            if ch in "([":
                depth += 1
            elif ch in ")]":
                depth -= 1
            elif depth == 0 and ch in "{;":
                break
            j += 1
        if j >= len(txt) or txt[j] == ";":
            continue  # declaration without body
        end = match_brace(txt, j)
        sig = txt[m.end():j]
        pm = re.search(r"\(", sig)
        params = ""
        if pm:
            d, k = 0, pm.start()
            for k in range(pm.start(), len(sig)):
                if sig[k] == "(":
                    d += 1
                elif sig[k] == ")":
                    d -= 1
                    if d == 0:
                        break
            params = sig[pm.start() + 1:k]
        has_self = bool(re.match(r"\s*(?:&\s*(?:'\w+\s+)?)?(?:mut\s+)?self\b", params))
        ity = ty_at(m.start())
        fn = Fn(rel, ity or stem, name, has_self, params, txt[j:end])
        fn.free = ity is None
        fns.append((m.start(), end, fn))
    # attribute nested fns' bodies to themselves only (remove them from the enclosing body)
    fns.sort(key=lambda t: t[0])
    result = []
    for a, b, f in fns:
        result.append(f)
    for idx, (a, b, f) in enumerate(fns):
        for a2, b2, f2 in fns:
            if a < a2 and b2 <= b and f2 is not f:
                f.body = f.body.replace(f2.body, " ")
    return result


def group_of(f):
    if f.file == "src/runtime.rs":
        return "eval" if f.ty == "Runtime" else "value"
    if f.file.startswith("src/builtins/"):
        # functions that can touch a run-time Value (parameter of type Value / generic Display, or a
        # formatting macro in the body) vs. plain library routines on strings and numbers
        if re.search(r"\bValue\b|\bDisplay\b", f.params) or "FMTPH" in f.body or re.search(r"\bValue\s*::", f.body):
            return "value"
        return "lib"
    if f.file == "src/syntax/parser.rs":
        return "parser"
    if f.file == "src/resolver.rs":
        return "resolver"
    return "cfg"


def call_args(body, pos):
    """Argument text of the call whose '(' is at body[pos]."""
    d = 0
    for k in range(pos, len(body)):
        if body[k] == "(":
            d += 1
        elif body[k] == ")":
            d -= 1
            if d == 0:
                return body[pos + 1:k]
    return body[pos + 1:]


def build():
    fns = []
    for rel in FILES:
        txt = remove_test_modules(strip_rust(read(rel)))
        fns += parse_fns(rel, txt)
    # merge duplicates (same Type::name, e.g. cfg-gated twins): union of bodies
    by_qual = {}
    order = []
    for f in fns:
        if f.qual in by_qual:
            g = by_qual[f.qual]
            if g.file != f.file:
                f.qual = "%s::%s@%s" % (f.ty, f.name, os.path.basename(f.file)[:-3])
                by_qual[f.qual] = f
                order.append(f)
            else:
                g.body += "\n" + f.body
                g.has_self = g.has_self or f.has_self
        else:
            by_qual[f.qual] = f
            order.append(f)
    fns = sorted(order, key=lambda f: (FILES.index(f.file), f.ty, f.name, f.qual))
    ids = {f.qual: i for i, f in enumerate(fns)}
    by_name = {}
    by_ty = {}
    types = set()
    for f in fns:
        by_name.setdefault(f.name, []).append(f)
        by_ty[(f.ty, f.name)] = f
        types.add(f.ty)
    fmt_fns = [f for f in fns if f.name == "fmt"]
    traits = set()
    for rel in FILES:
        for m in re.finditer(r"(?m)^[ \t]*(?:unsafe\s+)?impl\b([^{;]*?)\bfor\b", drop_generics(strip_rust(read(rel)))):
            t = re.findall(r"[A-Za-z_]\w*", m.group(1))
            if t:
                traits.add(t[-1])

    edges = {f.qual: set() for f in fns}
    sites = {}  # (caller, callee) -> list of argument texts (evaluator AST entries only)

    def add(caller, callee, args=None):
        edges[caller.qual].add(callee.qual)
        if args is not None:
            sites.setdefault((caller.qual, callee.qual), []).append(args.strip())

    for f in fns:
        b = f.body
        # self.f( / Self::f
        for m in re.finditer(r"\bself\s*\.\s*([A-Za-z_]\w*)\s*(?:::\s*<[^>]*>\s*)?\(", b):
            name = m.group(1)
            tgt = by_ty.get((f.ty, name))
            args = call_args(b, m.end() - 1)
            if tgt is not None:
                add(f, tgt, args)
            else:
                for g in by_name.get(name, []):
                    if g.has_self:
                        add(f, g, args)
        for m in re.finditer(r"\b([A-Za-z_]\w*)\s*::\s*([A-Za-z_]\w*)", b):
            q, name = m.group(1), m.group(2)
            if q == "Self":
                q = f.ty
            tgt = by_ty.get((q, name))
            if tgt is not None:
                add(f, tgt)
            elif q in traits:
                # trait-qualified call: every listed implementation
                for g in by_name.get(name, []):
                    add(f, g)
            elif q[0].islower():
                # module path: free functions of the file with that stem
                for g in by_name.get(name, []):
                    if g.free and g.ty == q:
                        add(f, g)
            # an upper-case path head that is neither a listed impl type nor a listed trait is a
            # type defined elsewhere (std, arena, process): its associated functions are not ours
        # .f( on another receiver
        for m in re.finditer(r"\.\s*([A-Za-z_]\w*)\s*(?:::\s*<[^>]*>\s*)?\(", b):
            name = m.group(1)
            pre = b[max(0, m.start() - 5):m.start()]
            if re.search(r"\bself\s*$", pre):
                continue  # handled above
            for g in by_name.get(name, []):
                if g.has_self:
                    add(f, g)
        # bare f(
        for m in re.finditer(r"(?<![\w.:!])([a-z_]\w*)\s*\(", b):
            name = m.group(1)
            if name in KEYWORDS:
                continue
            pre = b[max(0, m.start() - 4):m.start()]
            if re.search(r"\bfn\s+$", pre):
                continue
            for g in by_name.get(name, []):
                if g.free:
                    add(f, g)
        # formatting macros with a placeholder
        if "FMTPH" in b:
            for g in fmt_fns:
                add(f, g)

    guards = []
    for f in fns:
        if re.match(r"\{\s*self\s*\.\s*check_stack\s*\([^;]*\)\s*\?\s*;", f.body):
            guards.append(f.qual)
    if "Runtime::check_stack" not in ids:
        raise TranslatorError("Runtime::check_stack not found in src/runtime.rs")
    probe_ok, probe_why = probe_shape(by_qual["Runtime::check_stack"].body)
    base_ok, base_why = stack_base_shape(by_qual)
    if not (probe_ok and base_ok):
        # a probe that does not always compare the stack distance with the budget (or a base that
        # is not the stack pointer at run entry) guards nothing: no function counts as a guard
        print("gen_stack.py: check_stack is not an unconditional probe (%s; %s): no function is treated as guarded"
              % (probe_why, base_why))
        guards = []

    # structural / jump classification of evaluator AST-entry call sites
    structural, jump = [], []
    for (caller, callee), argl in sorted(sites.items()):
        if callee not in AST_ENTRY or not caller.startswith("Runtime::"):
            continue
        cf = by_qual[caller]
        path_args = [a for a in argl if not re.fullmatch(r"\*?[A-Za-z_]\w*", a) and not re.fullmatch(r"args\s*\.\s*args\s*\[\s*\d+\s*\]", a)]
        if path_args:
            jump.append((caller, callee))
        if (caller, callee) in STRUCTURAL:
            for a in argl:
                if not re.fullmatch(r"[A-Za-z_]\w*", a):
                    raise TranslatorError("call %s -> %s with argument %r is not a destructured sub-node" % (caller, callee, a))
                bound = re.search(r"(?:\{[^{}]*\b%s\b[^{}]*\}\s*=>|Some\(\s*%s\s*\)|\bfor\s+%s\s+in\b)" % (a, a, a), cf.body)
                if not bound:
                    raise TranslatorError("argument %r of %s -> %s is not bound by a pattern of the caller" % (a, caller, callee))
            if caller not in guards and callee not in guards:
                structural.append((caller, callee))
    for e in STRUCTURAL:
        if e[0] not in ids or e[1] not in ids:
            raise TranslatorError("whitelisted structural edge %s -> %s: function not found" % e)
    if not jump:
        raise TranslatorError("no user-call entry (exec_block_with_flow(func_def.body)) found in the evaluator")

    src = read("src/runtime.rs")
    m = re.search(r'#\[cfg\(not\(target_family\s*=\s*"wasm"\)\)\]\s*const\s+STACK_BUDGET\s*:\s*usize\s*=\s*([^;]+);', src)
    if not m:
        raise TranslatorError("non-wasm STACK_BUDGET not found")
    expr = re.sub(r"(?<=\d)_(?=\d)", "", m.group(1))
    if not re.fullmatch(r"[\w\s*+()<]+", expr):
        raise TranslatorError("unsupported STACK_BUDGET expression %r" % expr)
    budget = eval(expr, {"__builtins__": {}}, {"KIBI": 1024, "MEBI": 1024 * 1024, "GIBI": 1024 ** 3})

    data = [(q, q) for q in DATA if q in ids and q in edges[q] and q not in guards]
    global PROBE_INFO
    PROBE_INFO = {"probe_ok": probe_ok, "probe_why": probe_why, "base_ok": base_ok, "base_why": base_why,
                  "arrays": stack_arrays(by_qual)}
    return fns, ids, edges, guards, structural, jump, budget, data


def probe_shape(body):
    """check_stack must be: take the address of a local, compare (stack_base - address) with
    STACK_BUDGET in the ONLY `if`, return the error there (the ONLY `return`), otherwise Ok(()).
    Any other early exit, second condition or loop makes the probe conditional."""
    b = " ".join(body.split())
    why = []
    if len(re.findall(r"\bif\b", b)) != 1:
        why.append("%d `if`s" % len(re.findall(r"\bif\b", b)))
    if len(re.findall(r"\breturn\b", b)) != 1:
        why.append("%d `return`s" % len(re.findall(r"\breturn\b", b)))
    for kw in ("match", "while", "loop", "for", "else", "break", "continue"):
        if re.search(r"\b%s\b" % kw, b):
            why.append("`%s` in the probe" % kw)
    if "?" in b or "&&" in b or "||" in b:
        why.append("`?`/`&&`/`||` in the probe")
    m = re.search(r"\bif\b(.*?)\{\s*return\s+Err\s*\(", b)
    if not m:
        why.append("the `if` does not return the error")
    else:
        cond = m.group(1)
        if not re.fullmatch(r"\s*[\w.()\s]*\bstack_base\b[\w.()\s]*>=?\s*STACK_BUDGET\s*", cond) and \
                not re.fullmatch(r"\s*\w+\s*>=?\s*STACK_BUDGET\s*", cond):
            why.append("condition is not `<stack distance> > STACK_BUDGET`: %r" % cond.strip())
    if "stack_base" not in b or not re.search(r"&\s*raw\s+const\s+\w+\s+as\s+usize|&\s*\w+\s+as\s+\*const", b):
        why.append("no stack-pointer measurement against stack_base")
    if not re.search(r"Ok\s*\(\s*\(\s*\)\s*\)\s*\}$", b):
        why.append("does not end with Ok(())")
    return (not why), ("probe ok" if not why else "; ".join(why))


def stack_base_shape(by_qual):
    """stack_base is assigned exactly once in the listed files: in run_inner, from the address of
    a local, before the root block is executed."""
    sites = [(q, m.start()) for q, f in by_qual.items() for m in re.finditer(r"\bstack_base\s*=[^=]", f.body)]
    if len(sites) != 1 or sites[0][0] != "Runtime::run_inner":
        return False, "stack_base assigned at %s" % ([q for q, _ in sites] or "no site")
    body = by_qual["Runtime::run_inner"].body
    first_exec = body.find("exec_block_with_flow")
    if first_exec < 0 or sites[0][1] > first_exec:
        return False, "stack_base recorded after the root block is entered"
    if not re.search(r"stack_base\s*=\s*&\s*raw\s+const\s+\w+\s+as\s+usize", body):
        return False, "stack_base is not the address of a local of run_inner"
    return True, "base ok"


ARRAY_ELEM = {"u8": 1, "i8": 1, "bool": 1, "u16": 2, "i16": 2, "u32": 4, "i32": 4, "f32": 4, "char": 4}
# functions whose frames lie ABOVE the recorded stack base while a script runs
ABOVE_BASE_FILES = ["src/bin/naija/main.rs", "src/bin/naija/cmd.rs"]
ABOVE_BASE_RUNTIME = ["Runtime::run", "Runtime::run_with_analysis"]


def const_env(txt, env):
    env = dict(env)
    pending = {m.group(1): m.group(2) for m in re.finditer(r"\bconst\s+([A-Z_][A-Z0-9_]*)\s*:\s*usize\s*=\s*([^;]+);", txt)}
    for _ in range(len(pending) + 1):
        for k, e in list(pending.items()):
            e2 = re.sub(r"(?<=\d)_(?=\d)", "", e)
            e2 = re.sub(r"(\d)(usize|u32|u64)\b", r"\1", e2)
            try:
                if re.fullmatch(r"[\w\s*+\-/()<]+", e2):
                    env[k] = int(eval(e2.replace("/", "//"), {"__builtins__": {}}, env))
                    del pending[k]
            except Exception:
                pass
    return env


def stack_arrays(by_qual_runtime):
    """Array locals `[elem; N]` in the functions above the stack base: (function, bytes)."""
    base_env = {"KIBI": 1024, "MEBI": 1024 * 1024, "GIBI": 1024 ** 3}
    found = []

    def scan(name, body, env):
        for m in re.finditer(r"\[\s*([^\[\];]+?)\s*;\s*([^\[\]]+?)\s*\]", body):
            elem, n = m.group(1), m.group(2)
            n2 = re.sub(r"(?<=\d)_(?=\d)", "", n)
            n2 = re.sub(r"(\d)(usize|u32|u64)\b", r"\1", n2)
            if not re.fullmatch(r"[\w\s*+\-/()<]+", n2):
                raise TranslatorError("array length %r in %s cannot be evaluated" % (n, name))
            try:
                count = int(eval(n2.replace("/", "//"), {"__builtins__": {}}, env))
            except Exception:
                raise TranslatorError("array length %r in %s cannot be evaluated" % (n, name))
            sm = re.search(r"(u8|i8|bool|u16|i16|u32|i32|f32|char)\b", elem)
            size = ARRAY_ELEM[sm.group(1)] if sm else 8
            found.append((name, count * size))

    for rel in ABOVE_BASE_FILES:
        txt = remove_test_modules(strip_rust(read(rel)))
        env = const_env(txt, base_env)
        for f in parse_fns(rel, txt):
            scan("%s:%s" % (os.path.basename(rel), f.qual), f.body, env)
    rt = remove_test_modules(strip_rust(read("src/runtime.rs")))
    env = const_env(rt, base_env)
    for q in ABOVE_BASE_RUNTIME:
        if q in by_qual_runtime:
            scan(q, by_qual_runtime[q].body, env)
    if "Runtime::run_inner" in by_qual_runtime:
        scan("Runtime::run_inner", by_qual_runtime["Runtime::run_inner"].body, env)
    return found


def coq_ident(q):
    return "id_" + re.sub(r"\W+", "_", q)


def generate():
    fns, ids, edges, guards, structural, jump, budget, data = build()
    L = []
    A = L.append
    A("(* GENERATED by translator/gen_stack.py from the Rust source — do not edit. *)")
    A("From Coq Require Import ZArith List.")
    A("Import ListNotations.")
    A("")
    A("(* src/runtime.rs: STACK_BUDGET (non-wasm) *)")
    A("Definition stack_budget : Z := %d%%Z." % budget)
    A("")
    A("(* src/runtime.rs check_stack: one comparison of the stack distance with STACK_BUDGET, no other")
    A("   early exit (%s); stack_base recorded once, at run_inner entry (%s) *)" % (PROBE_INFO["probe_why"], PROBE_INFO["base_why"]))
    A("Definition probe_unconditional : bool := %s." % ("true" if PROBE_INFO["probe_ok"] else "false"))
    A("Definition stack_base_at_run_entry : bool := %s." % ("true" if PROBE_INFO["base_ok"] else "false"))
    A("(* array locals of the functions whose frames lie above the recorded stack base while a script")
    A("   runs (src/bin/naija/main.rs, cmd.rs, Runtime::run and run_with_analysis): %s *)" % (", ".join("%s %d B" % a for a in PROBE_INFO["arrays"]) or "none"))
    A("Definition above_base_array_bytes : Z := %d%%Z." % sum(b for _, b in PROBE_INFO["arrays"]))
    A("")
    A("(* function ids: file order, then impl type, then name *)")
    for f in fns:
        A("Definition %s : nat := %d. (* %s, %s *)" % (coq_ident(f.qual), ids[f.qual], f.file, group_of(f)))
    A("")
    A("(* names (the identifier after id_, as byte codes) for the model executable *)")
    A("Definition fn_names : list (nat * list Z) :=")
    A("[\n" + ";\n".join("  (%d, [%s]%%Z)" % (ids[f.qual], "; ".join(str(b) for b in coq_ident(f.qual)[3:].encode())) for f in fns) + "\n].")
    A("")
    A("(* call graph: caller -> callees (over-approximated, see the translator's header) *)")
    A("Definition call_graph : list (nat * list nat) :=")
    rows = []
    for f in fns:
        cs = sorted(ids[c] for c in edges[f.qual])
        rows.append("  (%d, [%s])" % (ids[f.qual], "; ".join(str(c) for c in cs)))
    A("[\n" + ";\n".join(rows) + "\n].")
    A("")
    A("(* functions whose first statement is `self.check_stack(..)?;` *)")
    A("Definition guard_fns : list nat := [%s]." % "; ".join(coq_ident(g) for g in guards))
    A("")
    for grp in ("eval", "value", "lib", "parser", "resolver", "cfg"):
        A("Definition grp_%s : list nat := [%s]." % (grp, "; ".join(str(ids[f.qual]) for f in fns if group_of(f) == grp)))
    A("")
    A("(* evaluator edges along which the callee receives a strict sub-node of the caller's AST node")
    A("   (whitelisted and verified call site by call site; edges touching a guard are dropped) *)")
    A("Definition structural_edges : list (nat * nat) := [%s]." % "; ".join("(%s, %s)" % (coq_ident(a), coq_ident(b)) for a, b in structural))
    A("(* self-recursion of value operations over nested run-time data (whitelist DATA, unguarded) *)")
    A("Definition data_edges : list (nat * nat) := [%s]." % "; ".join("(%s, %s)" % (coq_ident(a), coq_ident(b)) for a, b in data))
    A("(* evaluator call sites that pass an AST node which is not below the caller's node (user call) *)")
    A("Definition jump_edges : list (nat * nat) := [%s]." % "; ".join("(%s, %s)" % (coq_ident(a), coq_ident(b)) for a, b in jump))
    A("")
    return "\n".join(L), {"ids": ids, "guards": guards, "structural": structural, "jump": jump, "budget": budget, "data": data, "probe": {k: v for k, v in PROBE_INFO.items()},
                          "edges": {k: sorted(v) for k, v in edges.items()},
                          "groups": {f.qual: group_of(f) for f in fns}}


def main():
    try:
        text, info = generate()
    except TranslatorError as e:
        print("gen_stack.py: %s" % e)
        sys.exit(1)
    if not os.path.exists(OUT) or open(OUT, encoding="utf-8").read() != text:
        with open(OUT, "w", encoding="utf-8") as f:
            f.write(text)
        print("gen_stack.py: GenStack.v rewritten (%d functions, guards: %s)" % (len(info["ids"]), ",".join(info["guards"])))
    if len(sys.argv) > 2 and sys.argv[2] == "--json":
        print(json.dumps(info))


if __name__ == "__main__":
    main()
