#!/usr/bin/env python3
"""Regenerates coq/theories/GenTemplate.v from /repo/src/syntax/parser.rs (property C01).

What is read (regex over the source text, comments stripped):
  * `fn parse_string_literal`: which byte search decides "this literal is a template"
        memchr(b'{', bytes, 0)            -> v_open_brace_gate := true   (shipped)
        memchr2(b'{', b'}', bytes, 0)     -> v_open_brace_gate := false  (repaired)
    and what the `ArenaCow::Owned(..)` arm of the `template` match does
        returns Expr::String { parts: StringParts::Static(..) }  -> v_owned_static := true  (shipped)
        yields the arena copy (self.alloc_str(content))          -> v_owned_static := false (repaired)
  * `fn parse_template_segments`: the byte classes and the two escapes the model transcribes
    must still be there: `b'{'`/`b'}'` doubled-brace tests, `(.. as char).is_whitespace()` twice,
    `is_ascii_alphabetic() || b == b'_'`, `is_ascii_alphanumeric() || b == b'_'`, the
    "literal until next '}'" fallback, and the segment constructors.
The file is rewritten only when its content changes.  Exit status 2 with a message when the source
no longer has the shape parsed here.
"""
import os
import re
import sys

REPO = os.environ.get("VERIF_REPO", "/repo")
VERIF = os.path.dirname(os.path.dirname(os.path.abspath(__file__)))
OUT = os.path.join(VERIF, "coq", "theories", "GenTemplate.v")


class TranslatorError(Exception):
    pass


def strip_comments(src):
    return re.sub(r"//[^\n]*", "", src)


def fn_body(src, name):
    m = re.search(r"\bfn\s+%s\s*[(<]" % re.escape(name), src)
    if not m:
        raise TranslatorError("fn %s not found" % name)
    i = src.index("{", m.end())
    depth, j, n = 0, i, len(src)
    while j < n:
        c = src[j]
        if c == '"':
            j += 1
            while src[j] != '"':
                j += 2 if src[j] == "\\" else 1
        elif c == "'" and re.match(r"'(\\.|[^\\'])'", src[j:j + 4]):
            j += len(re.match(r"'(\\.|[^\\'])'", src[j:j + 4]).group(0)) - 1
        elif c == "{":
            depth += 1
        elif c == "}":
            depth -= 1
            if depth == 0:
                return src[i + 1:j]
        j += 1
    raise TranslatorError("unbalanced braces in fn %s" % name)


def generate():
    src = strip_comments(open(os.path.join(REPO, "src", "syntax", "parser.rs"), encoding="utf-8").read())
    lit = fn_body(src, "parse_string_literal")
    if re.search(r"memchr2\(\s*b'\{'\s*,\s*b'\}'\s*,\s*bytes\s*,\s*0\s*\)", lit):
        gate = False
    elif re.search(r"memchr\(\s*b'\{'\s*,\s*bytes\s*,\s*0\s*\)", lit):
        gate = True
    else:
        raise TranslatorError("parse_string_literal: template test is neither memchr(b'{') nor memchr2(b'{', b'}')")
    if not re.search(r"if\s+index\s*==\s*len\s*\{[^}]*StringParts::Static", lit, re.S):
        raise TranslatorError("parse_string_literal: `index == len` no longer returns a Static string")
    m = re.search(r"ArenaCow::Owned\(\.\.\)\s*=>\s*(\{.*?\}\s*\)\s*;\s*\}|[^,{]+,)", lit, re.S)
    if not m:
        raise TranslatorError("parse_string_literal: Owned arm not found")
    arm = m.group(1)
    if "StringParts::Static" in arm and "return" in arm:
        owned_static = True
    elif re.fullmatch(r"\s*self\.alloc_str\(\s*content\s*\)\s*,", arm):
        owned_static = False
    else:
        raise TranslatorError("parse_string_literal: unexpected Owned arm: %r" % arm[:80])
    if not re.search(r"let\s+segments\s*=\s*self\.parse_template_segments\(\s*template\s*\)", lit):
        raise TranslatorError("parse_string_literal no longer calls parse_template_segments(template)")
    if not re.search(r"if\s+segments\.is_empty\(\)\s*\{[^}]*StringParts::Static", lit, re.S):
        raise TranslatorError("parse_string_literal: empty segment list no longer gives a Static string")

    seg = fn_body(src, "parse_template_segments")
    need = [
        (r"memchr2\(\s*b'\{'\s*,\s*b'\}'\s*,\s*bytes\s*,\s*i\s*\)", "memchr2 scan for braces"),
        (r"\*ptr\.add\(i \+ 1\)\s*\}\s*==\s*b'\{'", "`{{` test"),
        (r"\*ptr\.add\(i \+ 1\)\s*\}\s*==\s*b'\}'", "`}}` test"),
        (r"StringSegment::Literal\(\"\{\"\)", "Literal(\"{\")"),
        (r"StringSegment::Literal\(\"\}\"\)", "Literal(\"}\")"),
        (r"b\.is_ascii_alphabetic\(\)\s*\|\|\s*b\s*==\s*b'_'", "identifier start class"),
        (r"b\.is_ascii_alphanumeric\(\)\s*\|\|\s*b\s*==\s*b'_'", "identifier continue class"),
        (r"\*ptr\.add\(j\)\s*\}\s*==\s*b'\}'", "closing brace after the name"),
        (r"StringSegment::Variable\(variable\)", "Variable segment"),
        (r"while\s+end\s*<\s*len\s*&&\s*unsafe\s*\{\s*\*ptr\.add\(end\)\s*\}\s*!=\s*b'\}'", "literal-until-`}` fallback"),
        (r"if\s+beg\s*<\s*len", "trailing literal"),
    ]
    for rx, what in need:
        if not re.search(rx, seg):
            raise TranslatorError("parse_template_segments: %s not found" % what)
    if len(re.findall(r"as\s+char\s*\)\s*\.is_whitespace\(\)", seg)) != 2:
        raise TranslatorError("parse_template_segments: expected two `(byte as char).is_whitespace()` skips")

    L = [
        "(* GENERATED by translator/gen_template.py from src/syntax/parser.rs — do not edit. *)",
        "Require Import NS.theories.Template.",
        "",
        "(* parse_string_literal: %s; Owned content %s *)" % (
            "only `{` makes a literal a template" if gate else "`{` or `}` makes a literal a template",
            "is returned as a Static string" if owned_static else "is parsed like borrowed content"),
        "Definition variant_of_source : variant :=",
        "  {| v_owned_static := %s; v_open_brace_gate := %s |}." % (str(owned_static).lower(), str(gate).lower()),
        "",
    ]
    return "\n".join(L)


def main():
    try:
        text = generate()
    except (TranslatorError, OSError, ValueError) as e:
        print("gen_template: %s" % e)
        sys.exit(2)
    if not os.path.exists(OUT) or open(OUT, encoding="utf-8").read() != text:
        with open(OUT, "w", encoding="utf-8") as f:
            f.write(text)
        print("gen_template: wrote %s" % os.path.relpath(OUT, VERIF))


if __name__ == "__main__":
    main()
