#!/usr/bin/env python3
"""Regenerates coq/theories/GenUnicode.v from the std source of the toolchain that builds /repo
(<sysroot>/lib/rustlib/src/rust/library/core/src/unicode/unicode_data.rs, `pub mod conversions`).

/repo/src/builtins/string.rs implements to_uppercase / to_lowercase as
`s.chars().flat_map(char::to_uppercase)` / `char::to_lowercase`, so the case mapping the interpreter
performs is the one compiled into std.  The sysroot is found by running `rustc --print sysroot`
with cwd = the repository (its rust-toolchain.toml selects the toolchain).

Read (regex over the source text, comments stripped):
  * `UNICODE_VERSION`                                                   -> unicode_version
  * the ASCII shortcuts `if c < '\\u{C0}'` of to_lower and `if c < '\\u{B5}'` of to_upper
                                                                        -> lower_ascii_below / upper_ascii_below
  * `static LOWERCASE_LUT` / `static UPPERCASE_LUT`: for every plane (`L2Lut`) the `singles`
    (`(Range::singleton(a) | Range::step_by_1(a..=b) | Range::step_by_2(a..=b), delta)`) and the
    `multis` (`(low, [o1, o2, o3])`)              -> lower_singles / lower_multis / upper_singles / upper_multis
    The parity flag of each Range constructor is read from the constructor's body.
Checked (exit status 2 when one of them no longer has the shape the model theories/CaseMap.v
transcribes): deconstruct (plane = c >> 16, low = c as u16), reconstruct ((plane << 16) | low),
`Range::end = start + len`, and in `lookup`: `l1_lut.l2_luts.get(input_high as usize)` else None,
the two comparisons of the binary search over singles, `mask = range.parity as u16`,
`input_low & mask == range.start() & mask`, `input_low.wrapping_add_signed(output_delta)`,
`Some([output, '\\0', '\\0'])`, the exact-key binary search over multis and the reconstruction of
its three outputs in the same plane, the final `None`; in to_lower / to_upper the
`[c.to_ascii_*case(), '\\0', '\\0']` shortcut and `lookup(c, &LUT).unwrap_or([c, '\\0', '\\0'])`;
in char/mod.rs the trimming done by `CaseMappingIter::new` (drop chars[2] when it is '\\0', then
chars[1] when it is '\\0', never chars[0]); in char/methods.rs that char::to_lowercase /
to_uppercase are `CaseMappingIter::new(conversions::to_lower(self))` / `to_upper`.
argv[1] (tables.json) is not used.  The file is rewritten only when its content changes.
"""
import os
import re
import subprocess
import sys

REPO = os.environ.get("VERIF_REPO", "/repo")
VERIF = os.path.dirname(os.path.dirname(os.path.abspath(__file__)))
OUT = os.path.join(VERIF, "coq", "theories", "GenUnicode.v")


class TranslatorError(Exception):
    pass


def strip_comments(src):
    src = re.sub(r"//[^\n]*", "", src)
    return re.sub(r"/\*.*?\*/", "", src, flags=re.S)


def sysroot():
    try:
        r = subprocess.run(["rustc", "--print", "sysroot"], cwd=REPO, capture_output=True, text=True, timeout=120)
    except (OSError, subprocess.SubprocessError) as e:
        raise TranslatorError("cannot run `rustc --print sysroot` in %s: %s" % (REPO, e))
    if r.returncode != 0 or not r.stdout.strip():
        raise TranslatorError("`rustc --print sysroot` failed in %s: %s" % (REPO, r.stderr.strip()))
    return r.stdout.strip().splitlines()[-1]


def read(path):
    try:
        with open(path, encoding="utf-8") as f:
            return strip_comments(f.read())
    except OSError as e:
        raise TranslatorError("cannot read %s (is the rust-src component installed?): %s" % (path, e))


def braces(src, start, what):
    """Text between the '{' at/after `start` and its matching '}'."""
    i = src.index("{", start)
    depth = 0
    for j in range(i, len(src)):
        if src[j] == "{":
            depth += 1
        elif src[j] == "}":
            depth -= 1
            if depth == 0:
                return src[i + 1:j]
    raise TranslatorError("unbalanced braces in %s" % what)


def fn_body(src, name, what=None):
    m = re.search(r"\bfn\s+%s\s*\(" % re.escape(name), src)
    if not m:
        raise TranslatorError("fn %s not found" % name)
    return braces(src, m.end(), what or ("fn " + name))


def need(cond, msg):
    if not cond:
        raise TranslatorError(msg)


def squash(s):
    return re.sub(r"\s+", "", s)


HEX = r"0x[0-9a-fA-F_]+"


def hx(t):
    return int(t.replace("_", ""), 16)


def parse_lut(conv, name, nplanes, parity_of):
    m = re.search(r"static\s+%s\s*:\s*L1Lut\s*=\s*L1Lut\s*" % name, conv)
    need(m, "static %s: L1Lut not found" % name)
    body = braces(conv, m.end(), name)
    m2 = re.match(r"\s*l2_luts\s*:\s*\[(.*)\]\s*,?\s*$", body, flags=re.S)
    need(m2, "%s: `l2_luts: [...]` not found" % name)
    inner = m2.group(1)
    plane_re = re.compile(
        r"L2Lut\s*\{\s*singles\s*:\s*&\[(.*?)\]\s*,\s*multis\s*:\s*&\[(.*?)\]\s*,?\s*\}", flags=re.S)
    planes = plane_re.findall(inner)
    need(re.fullmatch(r"[\s,]*", plane_re.sub("", inner)), "%s: text between the L2Lut blocks not understood" % name)
    need(len(planes) == nplanes, "%s: %d planes, but l2_luts is declared [L2Lut; %d]" % (name, len(planes), nplanes))
    single_re = re.compile(
        r"\(\s*Range::(singleton|step_by_1|step_by_2)\(\s*(%s)(?:\s*\.\.=\s*(%s))?\s*\)\s*,\s*(-?[\d_]+)\s*\)" % (HEX, HEX))
    multi_re = re.compile(r"\(\s*(%s)\s*,\s*\[\s*(%s)\s*,\s*(%s)\s*,\s*(%s)\s*,?\s*\]\s*\)" % (HEX, HEX, HEX, HEX))
    out = []
    for pi, (stxt, mtxt) in enumerate(planes):
        singles = []
        for kind, a, b_, d in single_re.findall(stxt):
            if kind == "singleton":
                need(b_ == "", "%s plane %d: Range::singleton with a range" % (name, pi))
                start, end = hx(a), hx(a)
            else:
                need(b_ != "", "%s plane %d: Range::%s without `a..=b`" % (name, pi, kind))
                start, end = hx(a), hx(b_)
            delta = int(d.replace("_", ""))
            need(0 <= start <= end <= 0xFFFF, "%s plane %d: range %s..=%s is not an ordered u16 range" % (name, pi, a, b_))
            need(end - start <= 255, "%s plane %d: range %s..=%s longer than 255 (Range::new asserts)" % (name, pi, a, b_))
            need(-32768 <= delta <= 32767, "%s plane %d: delta %d is not an i16" % (name, pi, delta))
            singles.append((start, end, parity_of[kind], delta))
        need(re.fullmatch(r"[\s,]*", single_re.sub("", stxt)), "%s plane %d: singles entry not understood" % (name, pi))
        multis = []
        for low, o1, o2, o3 in multi_re.findall(mtxt):
            vals = [hx(low), hx(o1), hx(o2), hx(o3)]
            need(all(0 <= v <= 0xFFFF for v in vals), "%s plane %d: multis entry %s is not u16" % (name, pi, low))
            multis.append((vals[0], vals[1:]))
        need(re.fullmatch(r"[\s,]*", multi_re.sub("", mtxt)), "%s plane %d: multis entry not understood" % (name, pi))
        out.append((singles, multis))
    return out


def check_shape(conv, mod_rs, methods_rs):
    """The parts of the algorithm that theories/CaseMap.v transcribes by hand."""
    # struct shapes
    m = re.search(r"struct\s+L1Lut\s*\{\s*l2_luts\s*:\s*\[\s*L2Lut\s*;\s*(\d+)\s*\]\s*,?\s*\}", conv)
    need(m, "struct L1Lut { l2_luts: [L2Lut; N] } not found")
    nplanes = int(m.group(1))
    need(re.search(r"struct\s+L2Lut\s*\{\s*singles\s*:\s*&'static\s*\[\s*\(\s*Range\s*,\s*i16\s*\)\s*\]\s*,\s*"
                   r"multis\s*:\s*&'static\s*\[\s*\(\s*u16\s*,\s*\[\s*u16\s*;\s*3\s*\]\s*\)\s*\]\s*,?\s*\}", conv),
         "struct L2Lut { singles: &[(Range, i16)], multis: &[(u16, [u16; 3])] } not found")
    need(re.search(r"struct\s+Range\s*\{\s*start\s*:\s*u16\s*,\s*len\s*:\s*u8\s*,\s*parity\s*:\s*bool\s*,?\s*\}", conv),
         "struct Range { start: u16, len: u8, parity: bool } not found")
    # Range constructors
    new = squash(fn_body(conv, "new", "Range::new"))
    need("letstart=*range.start();" in new and "letend=*range.end();" in new and "letlen=end-start;" in new
         and "Self{start,len:lenasu8,parity}" in new, "Range::new: unexpected body")
    parity_of = {}
    for kind, pat in (("singleton", r"Self::new\(start\.\.=start,(true|false)\)"),
                      ("step_by_1", r"Self::new\(range,(true|false)\)"),
                      ("step_by_2", r"Self::new\(range,(true|false)\)")):
        mm = re.fullmatch(pat, squash(fn_body(conv, kind, "Range::" + kind)))
        need(mm, "Range::%s: unexpected body" % kind)
        parity_of[kind] = mm.group(1) == "true"
    need(squash(fn_body(conv, "start", "Range::start")) == "self.start", "Range::start: unexpected body")
    need(squash(fn_body(conv, "end", "Range::end")) == "self.start+self.lenasu16", "Range::end: unexpected body")
    # deconstruct / reconstruct
    de = squash(fn_body(conv, "deconstruct"))
    need("letc=casu32;" in de and "letplane=(c>>16)asu16;" in de and "letlow=casu16;" in de and de.endswith("(plane,low)"),
         "deconstruct: unexpected body")
    rc = squash(fn_body(conv, "reconstruct"))
    need("char::from_u32_unchecked(((planeasu32)<<16)|(lowasu32))" in rc, "reconstruct: unexpected body")
    # lookup
    lk = squash(fn_body(conv, "lookup"))
    for piece, msg in (
        ("let(input_high,input_low)=deconstruct(input);", "deconstruct of the input"),
        ("letSome(l2_lut)=l1_lut.l2_luts.get(input_highasusize)else{returnNone;};", "`l2_luts.get(input_high as usize)` else None"),
        ("l2_lut.singles.binary_search_by(|(range,_)|{", "binary search over singles"),
        ("ifinput_low<range.start(){Ordering::Greater}elseifinput_low>range.end(){Ordering::Less}else{Ordering::Equal}",
         "the comparisons of the binary search over singles"),
        ("let&(range,output_delta)=unsafe{l2_lut.singles.get_unchecked(idx)};", "fetch of the found single"),
        ("letmask=range.parityasu16;", "`mask = range.parity as u16`"),
        ("ifinput_low&mask==range.start()&mask{", "the parity mask test"),
        ("letoutput_low=input_low.wrapping_add_signed(output_delta);", "`wrapping_add_signed`"),
        ("letoutput=unsafe{reconstruct(input_high,output_low)};returnSome([output,'\\0','\\0']);", "result of a single"),
        ("ifletOk(idx)=l2_lut.multis.binary_search_by_key(&input_low,|&(p,_)|p){", "binary search over multis"),
        ("let&(_,output_lows)=unsafe{l2_lut.multis.get_unchecked(idx)};", "fetch of the found multi"),
        ("letoutput=output_lows.map(|output_low|unsafe{reconstruct(input_high,output_low)});returnSome(output);",
         "result of a multi"),
    ):
        need(piece in lk, "lookup: %s not found (shape changed)" % msg)
    need(lk.endswith("};None"), "lookup: does not end with `None`")
    order = [lk.find(x) for x in ("l2_luts.get(", "singles.binary_search_by(", "wrapping_add_signed", "multis.binary_search_by_key(")]
    need(order == sorted(order), "lookup: steps in an unexpected order")
    # to_lower / to_upper
    th = {}
    for fn, asc, lut in (("to_lower", "to_ascii_lowercase", "LOWERCASE_LUT"), ("to_upper", "to_ascii_uppercase", "UPPERCASE_LUT")):
        b = squash(fn_body(conv, fn))
        mm = re.fullmatch(r"ifc<'\\u\{([0-9a-fA-F]+)\}'\{return\[c\.%s\(\),'\\0','\\0'\];\}"
                          r"lookup\(c,&%s\)\.unwrap_or\(\[c,'\\0','\\0'\]\)" % (asc, lut), b)
        need(mm, "%s: unexpected body (ASCII shortcut / lookup / unwrap_or)" % fn)
        th[fn] = int(mm.group(1), 16)
    # CaseMappingIter::new and char::to_{lower,upper}case
    mi = re.search(r"impl\s+CaseMappingIter\s*\{", mod_rs)
    need(mi, "impl CaseMappingIter not found in char/mod.rs")
    it = squash(fn_body(mod_rs[mi.start():], "new", "CaseMappingIter::new"))
    need(it == "letmutiter=chars.into_iter();ifchars[2]=='\\0'{iter.next_back();ifchars[1]=='\\0'{iter.next_back();}}CaseMappingIter(iter)",
         "CaseMappingIter::new: unexpected body (trimming of the '\\0' padding)")
    need(re.search(r"struct\s+CaseMappingIter\s*\(\s*core::array::IntoIter<\s*char\s*,\s*3\s*>\s*\)", mod_rs),
         "struct CaseMappingIter(core::array::IntoIter<char, 3>) not found")
    mn = re.search(r"impl\s+Iterator\s+for\s+CaseMappingIter\s*\{", mod_rs)
    need(mn and squash(fn_body(mod_rs[mn.start():], "next", "CaseMappingIter::next")) == "self.0.next()",
         "CaseMappingIter::next is not `self.0.next()`")
    need(squash(fn_body(methods_rs, "to_lowercase")) == "ToLowercase(CaseMappingIter::new(conversions::to_lower(self)))",
         "char::to_lowercase: unexpected body")
    need(squash(fn_body(methods_rs, "to_uppercase")) == "ToUppercase(CaseMappingIter::new(conversions::to_upper(self)))",
         "char::to_uppercase: unexpected body")
    for fn, pred in (("to_ascii_uppercase", "is_ascii_lowercase"), ("to_ascii_lowercase", "is_ascii_uppercase")):
        mm = re.search(r"pub\s+const\s+fn\s+%s\s*\(\s*&self\s*\)\s*->\s*char" % fn, methods_rs)
        need(mm, "char::%s not found" % fn)
        need(squash(braces(methods_rs, mm.end(), fn)) ==
             "ifself.%s(){(*selfasu8).ascii_change_case_unchecked()aschar}else{*self}" % pred,
             "char::%s: unexpected body" % fn)
    return nplanes, parity_of, th["to_lower"], th["to_upper"]


def coq_singles(planes):
    rows = []
    for singles, _ in planes:
        items = ["(%d,%d,%s,%d)" % (s, e, "true" if p else "false", d) for s, e, p, d in singles]
        rows.append(wrap(items))
    return "[\n" + ";\n".join(rows) + "\n]"


def coq_multis(planes):
    rows = []
    for _, multis in planes:
        items = ["(%d,[%s])" % (low, ";".join(str(o) for o in outs)) for low, outs in multis]
        rows.append(wrap(items))
    return "[\n" + ";\n".join(rows) + "\n]"


def wrap(items, width=110):
    if not items:
        return "  []"
    lines, cur = [], "  ["
    for k, it in enumerate(items):
        piece = it + (";" if k + 1 < len(items) else "]")
        if len(cur) + len(piece) + 1 > width and cur.strip() not in ("", "["):
            lines.append(cur.rstrip())
            cur = "   "
        cur += piece + " "
    lines.append(cur.rstrip())
    return "\n".join(lines)


def generate():
    root = sysroot()
    core = os.path.join(root, "lib", "rustlib", "src", "rust", "library", "core", "src")
    data = read(os.path.join(core, "unicode", "unicode_data.rs"))
    mod_rs = read(os.path.join(core, "char", "mod.rs"))
    methods_rs = read(os.path.join(core, "char", "methods.rs"))

    m = re.search(r"pub\s+const\s+UNICODE_VERSION\s*:\s*\(\s*u8\s*,\s*u8\s*,\s*u8\s*\)\s*=\s*\(\s*(\d+)\s*,\s*(\d+)\s*,\s*(\d+)\s*\)\s*;", data)
    need(m, "UNICODE_VERSION not found")
    version = tuple(int(x) for x in m.groups())

    mc = re.search(r"pub\s+mod\s+conversions\s*", data)
    need(mc, "`pub mod conversions` not found")
    conv = braces(data, mc.end(), "mod conversions")

    nplanes, parity_of, lower_below, upper_below = check_shape(conv, mod_rs, methods_rs)
    lower = parse_lut(conv, "LOWERCASE_LUT", nplanes, parity_of)
    upper = parse_lut(conv, "UPPERCASE_LUT", nplanes, parity_of)
    need(any(s for s, _ in lower) and any(s for s, _ in upper), "an empty case-mapping table")

    L = []
    A = L.append
    A("(* GENERATED by translator/gen_unicode.py from <sysroot>/lib/rustlib/src/rust/library/core/src/unicode/unicode_data.rs")
    A("   (mod conversions) of the toolchain selected by <repo>/rust-toolchain.toml — do not edit.")
    A("   singles: (start, end, parity, delta) = (Range::singleton | step_by_1 | step_by_2, i16 delta), one list per plane;")
    A("   multis: (low, [o1; o2; o3]) = (u16, [u16; 3]), one list per plane. *)")
    A("From Coq Require Import ZArith List Bool.")
    A("Import ListNotations.")
    A("Open Scope Z_scope.")
    A("")
    A("Definition unicode_version : Z * Z * Z := (%d, %d, %d)." % version)
    A("(* to_lower: `if c < '\\u{%X}'` -> to_ascii_lowercase;  to_upper: `if c < '\\u{%X}'` -> to_ascii_uppercase *)" % (lower_below, upper_below))
    A("Definition lower_ascii_below : Z := %d." % lower_below)
    A("Definition upper_ascii_below : Z := %d." % upper_below)
    A("")
    for nm, planes in (("lower", lower), ("upper", upper)):
        A("(* %sCASE_LUT: %s *)" % (nm.upper(), ", ".join("plane %d: %d singles, %d multis" % (i, len(s), len(mu))
                                                       for i, (s, mu) in enumerate(planes))))
        A("Definition %s_singles : list (list (Z * Z * bool * Z)) := %s." % (nm, coq_singles(planes)))
        A("Definition %s_multis : list (list (Z * list Z)) := %s." % (nm, coq_multis(planes)))
        A("")
    return "\n".join(L)


def main():
    try:
        text = generate()
    except TranslatorError as e:
        print("translator: ERROR (gen_unicode) %s" % e)
        sys.exit(2)
    old = open(OUT, encoding="utf-8").read() if os.path.exists(OUT) else None
    if old != text:
        with open(OUT, "w", encoding="utf-8") as f:
            f.write(text)
        print("translator: GenUnicode.v rewritten")
    else:
        print("translator: GenUnicode.v unchanged")


if __name__ == "__main__":
    main()
